#!/usr/bin/env python3
"""Regenerates /verif/MANIFEST.json from the table below (kept in one place so the file stays valid)."""
import json, os, sys

V = os.path.dirname(os.path.dirname(os.path.abspath(__file__)))

TB = ('rustc nightly front-end/MIR construction; the grmfacts driver (/verif/driver) and rules/mirlib.py; '
      'calls taking only shared references are treated as pure functions of their arguments')

CHECKS = {
    'C01': dict(
        level='other',
        text='ONLY the individual steps of the LR(1) construction: the start item is (start production, dot 0) with context {EOF}; '
             'in the closure the lookahead of the items added for the rule behind the dot of (p, d) comes from the symbols '
             'after position d+1, the scratch context is cleared first, the context of that same item is ored in exactly on '
             'the paths on which the scan of the suffix ran to its end, and the items added are the productions of that rule '
             'at dot 0; goto carries an item over iff it is incomplete and its symbol at the dot is the transition symbol, '
             'with the same production and context and dot + 1; every incomplete item\'s symbol at the dot gets one '
             'successor per state, computed by goto on that very symbol. Between its reset and its use the look-ahead set collected for the rule behind the dot only grows. Itemset::add answers true or what merging the context reported - never "unchanged" for an item whose look-ahead grew.',
        note='Each step is a necessary condition of "accepts exactly L(G)". That the steps compose to the canonical automaton '
             '(after Pager merging: C02) and language equality as such are NOT decided. Related steps are reported under other '
             'properties: closure work-list discipline and FIRST/nullable pairing (C04 R4.4/R4.5), reduce/accept cells (C03), '
             'shift/goto targets (C16). Trusted: ' + TB,
        technique='symbolic path tables of Itemset::close / Itemset::goto / pager_stategraph extracted from MIR and compared with the textbook step',
        ref='§4 C01'),
    'C02': dict(
        level='other',
        text='Merging discipline of the Pager construction: a changing weak merge discards the closed form of exactly the merged '
             'state and re-queues it; exact equality of candidates is tried before weak compatibility; weakly_compatible '
             'implements Pager\'s three conditions (all 16 valuations of the four look-ahead intersections enumerated) after '
             'checking equal cores, and a pair that passes hands over to the next pair of the row; all edge-recording sites of a '
             'reprocessed state overwrite; garbage collection precedes graph construction and filters the state vector and '
             'the edge vector by the same membership test; a goto set is merged only into a state that passed the weak-compatibility test, '
             'and the closed form of the state being processed is stored before its successors are merged; the new number garbage '
             'collection writes into an edge depends on the edge\'s target, never on a running count of the loop over the source states; '
             'the look-ahead intersection test answers true as soon as any pair of storage words shares a bit; the number garbage collection records for a kept state counts the states kept before it.',
        note='Necessary conditions only: equivalence with canonical LR(1) on every input and "never more states than canonical" '
             'need an independent construction and are NOT decided. Trusted: ' + TB,
        technique='path-table extraction (exhaustive over the 4 intersection atoms), dominance and reachability over MIR',
        ref='§4 C02'),
    'C03': dict(
        level='proof',
        text='Finite decision tables are read back out of the compiler\'s MIR by exhaustive path enumeration and '
             'compared with Yacc\'s rules: shift/reduce resolution (every precedence/associativity valuation), '
             'reduce/reduce + accept/reduce handling, where a production\'s precedence comes from, keyword->kind, '
             'and the %expect rule (decided over a finite abstract model of expect/expectrr/conflict counts); the two conflict '
             'lists only grow and are re-ordered (nothing takes records out again before they are reported and counted).',
        note='Decides the per-cell resolution tables and the %expect comparison for every input because they are '
             'loop-free decision procedures. Does NOT decide that the automaton offers the right candidate actions '
             '(C01) nor exactness of the conflict *set* beyond per-cell bookkeeping. Trusted: ' + TB,
        technique='MIR path-table extraction (custom rustc_private driver) + finite-model comparison with the specification table',
        ref='§4 C03'),
    'C04': dict(
        level='other',
        text='Driver-side clauses only: with recovery off an Error action yields exactly one ParseError (the state just looked '
             'up, the lexeme at the very input index used for the lookup, no repairs), no recoverer call and no value; the '
             'end-of-input lexeme is a faulty zero-length EOF lexeme at the end of the last real lexeme; action() is a pure '
             'decode of the table cell; with recovery on, every path of the arm that calls the recoverer pushes exactly one error '
             'carrying that same state and lexeme, repairs found or not. Itemset::add never reports "unchanged" for an item whose look-ahead grew. Two necessary conditions of the table side: the LR(1) closure\'s work list is cleared '
             'only for the entry just taken, every taken entry is cleared, an entry is scheduled exactly when Itemset::add '
             'reports a change; and FIRST(Y) of a symbol behind the dot is merged together with a test of nullable(Y).',
        note='That the state the parser is in rejects exactly at the viable-prefix boundary is table correctness (C01) and is NOT decided beyond those two conditions. Trusted: ' + TB,
        technique='symbolic path tables of the LR driver arms extracted from MIR, compared with the specification',
        ref='§4 C04'),
    'C05': dict(
        level='other',
        text='Inserted tokens are materialised as zero-length faulty lexemes at the start of the next real lexeme and fed to one LR '
             'step over [laidx, laidx+1) in both search and replay; success criterion (3 trailing shifts or Accept) with a single '
             'constant; the sequence replayed on the real stacks is element 0 of the returned vector; the three copies of the LR '
             'step (driver, replay, search) agree on lookup key, reduce, shift and accept/error behaviour. The replay of a reported sequence on the real stacks does what the sequence says, per repair kind (Insert: one faulty lexeme over [i,i+1), index kept; Delete: index+1; Shift: the input over [i,i+1), index from the parse). lr_upto\'s end index is exclusive: every round that looks an action up has established index != end.',
        note='Validity of every reconstructed sequence and equality of the final value with a re-parse are search results over runtime stacks and are NOT decided. Trusted: ' + TB,
        technique='symbolic path tables + sibling agreement between duplicated LR-step implementations in MIR',
        ref='§4 C05'),
    'C06': dict(
        level='other',
        text='Post-processing order of repair sequences (strip trailing shifts, then de-duplicate, then sort) by dominance; the '
             'ranking comparator as a table; no construction of an EOF insertion; neighbour-generation table incl. never '
             'insert after delete; positive token costs asserted before parsing; the node-merging relation (eq table over the '
             'fields themselves, Hash subset); the two phases of the search and the sweep\'s cost filter; every candidate is '
             'test-parsed to the same end point; a forward move that consumed a lexeme is never discarded, and is recorded as a '
             'Shift repair exactly when it consumed one; a deletion is charged the cost of the token at the node\'s own position; '
             'whether an insertion neighbour is built depends only on the candidate iterator, the end-of-input test and the trial parse. The cost-bucket list is long enough for a neighbour of any permitted cost before it is indexed.',
        note='Minimality and completeness of the returned set need the exhaustive reference search and are NOT decided. Trusted: ' + TB,
        technique='path-table extraction of comparator/neighbour/eq tables and dominance ordering of pipeline stages in MIR',
        ref='§4 C06'),
    'C07': dict(
        level='other',
        text='Driver table with recovery on (one recover call, one error carrying its repairs, None iff repairs are empty, else '
             'continue at the returned index); the search\'s cost-bucket list is long enough for any neighbour cost when indexed; budget only shrinks and bounds the deadline; every cycle of every loop in the '
             'recovery cone is deadline-tested, iterator driven, counter bounded or consuming; every give-up exit of recover '
             'returns (unchanged index, no repairs); a Shift repair is recorded only for a move that consumed a lexeme (so the '
             '"three trailing shifts" of the success test are three real lexemes). The replay of a repair sequence on the real stacks moves exactly as far as the sequence says (shared with C05). The replay\'s end index is exclusive (shared with C05).',
        note='Strictly increasing error positions three lexemes apart depend on what the search finds and are NOT decided beyond that. Trusted: ' + TB,
        technique='symbolic path tables of the driver, per-cycle classification of recovery loops (deadline / iterator / counter / consuming) in MIR',
        ref='§4 C07'),
    'C08': dict(
        level='other',
        text='Exactly one action call and one push of its result per reduction; argument provenance (rule of the production, '
             'lexer, the very span pushed on the span stack, the drained child values, a clone of the parameter); the '
             'hand-duplicated reduce code of driver and replay is compared with each other after replacing stacks by role '
             'symbols; generic-tree mapping order; on a shift the span pushed is that of the lexeme pushed; the span handed to '
             'an action runs from the first popped entry that derived something to the end of the last entry, or is zero-length. On a shift the lexeme pushed is the one whose token was looked up on that round.',
        note='The span SHAPE is decided (R8.7: an empty production gets a zero-length span - found and fixed a defect, /repo '
             '26c2db3); that each span-stack entry holds what its symbol derived is NOT decided. Trusted: ' + TB,
        technique='sibling agreement on canonicalised symbolic terms + exactly-once path counting in MIR',
        ref='§4 C08'),
    'C09': dict(
        level='other',
        text='Rule selection: (longest, rule) replaced only under a STRICT comparison while rules are visited in ascending order '
             'and matched at the position\'s start offset; applicability table of a rule in a start state; tiling (offset '
             'advances by exactly the longest match and only if > 0, emitted lexeme = (token of the chosen rule, start, '
             'longest), every error ends lexing); start-state stack operations per operation variant, on every path; the regex '
             'handed to the engine is the user text grouped behind an anchor (\\A(?:..)); whether the id synchronisation answers "nothing '
             'missing" is decided by an emptiness test, never by comparing counts (found the defect fixed in /repo 4eebccd); a start state is looked up by comparing its id field, never by using the id as a position in the list.',
        note='What the regexes match and the contents of the id synchronisation sets are NOT decided. Trusted: regex crate; ' + TB,
        technique='symbolic cycle tables of the lexing loops extracted from MIR (strictness/orientation of comparisons, provenance of emitted values)',
        ref='§4 C09'),
    'C10': dict(
        level='other',
        text='Structural clauses: names and their spans come from the same bounds (parse_name / parse_token / their callers); the '
             'token span table grows exactly when the token set reports a new token; nothing but that table depends on first mention; every line break the '
             'scanner recognises and moves over inside a loop that ends at the end of its line advances the line counter that loop compares; '
             'inside a block comment the closing `/` is looked for only after a `*` (found the defect fixed in /repo 46ee60d); and '
             '"numbered densely from zero, every index the API returns is in range". Fields of the '
             'grammar object that an accessor indexes with a PIdx/TIdx/RIdx are found from the accessors\' MIR; in the constructor '
             'every vector flowing into such a field must end with the length of its class leader (the vector whose len() '
             'becomes prods_len/tokens_len/rules_len): same initial length and pushes in the same straight-line regions, or '
             'a snapshot of / one push per element of the completed leader. The string parse_string assembles chunk by chunk is only appended to inside its scan loop. No character class of a token regex mixes the two quote characters (a quoted token ends at its own kind of quote). On every pass of the production loop that consumed a token, the production\'s end becomes the end of the last token consumed. Inside a block comment the scan cursor advances by at most one fetched character per pass (a character only peeked at is left for the next pass).',
        note='The round-trip clauses of C10 (rules, symbols, precedences, %epp, actions are the ones written in the '
             'source, whatever the layout) are NOT decided beyond the span and table clauses above. Trusted: ' + TB,
        technique='lock-step growth analysis of parallel tables over MIR (accessor-derived index classes, per-region push counting, def-use)',
        ref='§4 C10'),
    'C11': dict(
        level='other',
        text='(1) Every call handing source text to a span-producing specification parser passes the caller\'s whole text '
             '(def-use chain of the argument contains no slicing/trimming callee), so spans index what the user wrote. '
             '(2) For each LexFlags field (read from the ADT) name agreement is checked along the whole plumbing: header '
             'key -> field, defaults merge, field -> RegexBuilder setter of the same name, CTLexerBuilder setter -> header key. '
             '(3) No number that is a setting is narrowed with an `as` cast on its way into a flag (all integer casts enumerated). '
             '(4) The lex parser strips and tests blanks with its one white-space predicate only (no Unicode White_Space trim/is_whitespace). '
             '(5) A span built from the length of a piece line[A..] of a rule line starts at that piece (offset of the line + A), on every path. '
             '(6) Regex text is unescaped alike with and without a start-state prefix; the parser\'s list of escapes it passes through '
             'covers every escape form the regex engine interprets; one-character splits drop empty pieces; the inclusive/exclusive '
             'kind of a start state is the constant of the declaration pattern that matched. No span bound in the .l parser comes from searching for the text of a piece with str::find (first occurrence, not the position of the piece). Each name of a comma-separated start-state list is trimmed before it is looked up.',
        note='Decides the span-offset clause and the "flags given are the ones in force" clause structurally. Does NOT decide '
             'that rule splitting and escape rewriting denote the right regular language. Trusted: ' + TB,
        technique='def-use provenance of parser inputs + name-agreement check over resolved field indices, callee names and constant strings in MIR',
        ref='§4 C11'),
    'C12': dict(
        level='other',
        text='Over the call-graph cone of the specification parsers (%grmtools section, Yacc, lex): (1) every natural loop of '
             'the hand-written scanners has termination evidence - std-iterator driven, work list guarded by set insertion, or a '
             'usize cursor shown strictly greater at the end of EVERY cycle header->header (cycles enumerated symbolically, inner '
             'loops widened under a monotonicity check, helper functions evaluated on their return paths with actual arguments, '
             'regex literals analysed for minimum match width, recursion handled by greatest-fixpoint hypotheses); (2) no '
             'unwrap/expect consumes an input-dependent fallible producer; (3) no call-graph cycle (input-depth recursion); (4) a byte '
             'cursor stepped by a constant on a cycle that reads the text at it steps only past characters proven ASCII on that '
             'path (literal match, range bound, is_ascii* or ASCII lookahead), so it stays on a character boundary; (5) every '
             'unwrap of a peek S[k..].chars().next() is reached only with k < len(S) (linear bounds domain + 3 library postconditions); '
             '(6) no Span bound is computed from the length of an owned String (a processed copy of the text). No returned position, slice bound or span is computed from the length of a transformed copy of the text (to_lowercase and the like change byte lengths).',
        note='Decides "never hangs in a scanner loop", "no panic from unwrapping an input-dependent failure" and "no unbounded '
             'recursion", plus the constant-step instance of the char-boundary clause; does NOT decide absence of slicing/index '
             'panics in general nor that every span lies on a char boundary. '
             '4 facts are trusted with reasons (rules/progress.py TRUSTED_FN/TRUSTED_POS) and reported in the evidence notes when used. '
             'Two known findings (array nesting recursion; the action span built from a trimmed copy). Trusted: ' + TB,
        technique='per-loop cursor-progress analysis on MIR (symbolic cycle enumeration + interprocedural return-path evaluation), deny-list value-flow for unwrap, call-graph SCCs',
        ref='§4 C12, §3 A6'),
    'C13': dict(
        level='other',
        text='Plumbing clauses of the code generators, decided on what they WRITE: the token sequences pushed by quote! are '
             'reconstructed from the generators\' MIR and the value interpolated next to each generated name is traced to the '
             'builder field it comes from. The generated lexerdef() assigns every field of LexFlags from the same-named field of '
             'the flags the lexer was built with and falls back to that same field of the defaults; every generated parser run '
             '(one per action kind) passes the builder\'s recovery setting to RTParserBuilder::recoverer; the generated reader '
             'selects, per SerialisationFormat variant, the integer encoding the builder wrote that variant with; every generated '
             'Lexeme arm of the action wrappers answers Err for a faulty (inserted) lexeme and Ok otherwise. Every quoting function of a workspace enum writes, for each variant, that variant\'s own name into the generated path. The constructor generated code rebuilds the lexer with (from_rules) stores the rule list and the start states exactly as given. Every value the lexer generator obtains from a getter of Rule reaches the quotation through one definition chain (no content-dependent substitute).',
        note='NOT decided: that the generated and the run-time pipeline produce the same lexemes, values, errors and repairs for '
             'every input (translation validation per generated program; needs both to be run). $-substitution and wrapper '
             'argument order are not decided either (a slip there fails to compile or fails every compile-time test). Trusted: '
             'the quote crate\'s expansion scheme (push_ident / push_<punct> / push_group / ToTokens::to_tokens in program order), ' + TB,
        technique='reconstruction of generated token sequences from quote! expansions in MIR + def-use tracing of interpolated values',
        ref='§4 C13, §3 A12'),
    'C14': dict(
        level='proof',
        text='Induction over the type closure: every workspace type reachable from YaccGrammar / StateTable has both codec impls, '
             'each stemming from the derive macro of the same name; the derived writer writes every field with the codec of '
             'its own type (no skip / with) and every enum variant with its own constant tag, which the derived reader maps back '
             'to that variant; the same wincode configuration type is selected for writing and reading per '
             'SerialisationFormat variant, for grammar and table alike. Thorough tier: the read side is taken from the MIR of '
             'every generated parser in the repository, and rustc itself witnesses the codec bounds for u8/u16/u32 x both '
             'configurations and the privacy of the fields (compile_fail doc-tests with compiling twins). No field of a serialised type exists only under a #[cfg] that holds in the analysed build (the layout must not depend on the build configuration).',
        note='Proof relative to the trusted base: wincode\'s derive macros and primitive/Box<[T]>/Option/String/tuple codecs, and the '
             'codecs shipped by vob, sparsevec, packedvec. ' + TB,
        technique='codec-closure check over type-checked ADTs/impls (derive provenance from expansion data), derived-writer field coverage in MIR, type-level compile_fail witnesses',
        ref='§4 C14'),
    'C15': dict(
        level='other',
        text='Every call that starts iterating a std HashMap/HashSet whose hasher type parameter is RandomState (read from '
             'the resolved generic arguments; FNV item sets and IndexMap are deterministic and are not sources) is '
             'classified by its consumer; anything that lets hash order reach an ordered result (Vec::push, index '
             'allocation, first-match, formatting) is a violation unless it is one of 7 listed sites, each excusing named effects '
             'only (all &mut arguments of calls in such a loop are examined; a Vec sorted after the loop is order-free); the premise of the '
             'one exception that rests on another function (the token list CTTokenMapBuilder::new collects is only read by build through a '
             'copy sorted by name) is itself checked. '
             'Thorough tier additionally checks in the MIR of the repository\'s own generated parsers that start-up data '
             'is obtained through OnceLock::get_or_init and that no static mut exists.',
        note='Necessary condition for run-to-run determinism of numbering, tables and generated code; not a proof of '
             'byte-identical output. Assumes std HashMap/HashSet with RandomState are the only non-deterministic '
             'iteration sources. Trusted: ' + TB,
        technique='type-resolved order-taint analysis over MIR (hasher read from generic arguments) with consumer classification',
        ref='§4 C15'),
    'C16': dict(
        level='proof',
        text='The four derived views of the state table (tokens with actions, shift tokens, core reductions, reduce-only '
             'flag) are shown to be functions of the FINAL action cells: every bit-set happens after the last program '
             'point that can write a cell and under a decode of that cell; the per-variant contribution table, the '
             'encode/decode tag tables and goto\'s +1 encoding are enumerated exhaustively; shift/goto targets are '
             'shown to come from the graph edge of the same symbol; gc dominates graph construction and keeps exactly a '
             'reachability closure from the start state; every accessor that scans a row of a derived view scans start .. start + width for one `*_len` width of the table, the one its start is computed from.',
        note='Does NOT decide that each closed state is the LR(1) closure of its core (C01). Trusted: Vob::set / '
             'SparseVec::from,get semantics; ' + TB,
        technique='MIR CFG reachability/dominance (write-after-view ordering) + exhaustive path-table extraction for encode/decode and the per-cell view table',
        ref='§4 C16'),
    'C17': dict(
        level='other',
        text='ONLY the fixed-point discipline of the analyses computed by iteration (FIRST/nullable, FOLLOW): the '
             'iterate-until-unchanged loops are found structurally; in each the change flag is reset once per round and '
             'otherwise only raised (never overwritten with a value that can be false), and every mutation of '
             'round-surviving state raises the flag, directly or through a test of its change result. Breaking either stops '
             'the iteration before the least fixed point, i.e. gives sets that are too small. Also: every loop summary flag of '
             'the analyses (all_done / cmplt / empty / only_reduces ...) moves only away from its initial value inside its loop; '
             'wherever FIRST(Y) of a production symbol is read as its contribution, nullable(Y) of the same Y is tested; and the '
             'min/max cost accumulators keep the lower/higher candidate; the round loops of the cost functions have termination '
             'evidence (exit on an unchanged round, or cyclic rules finalised beforehand); a maximum is final only when no '
             'production of the rule is incomplete; the minimal-sentence generator stops scanning a production once it has '
             'deferred to a rule (else the rest is emitted twice and out of order); the path query compares every edge it discovers with '
             'the target (or skips only rules it marked right after comparing them). On a deferring round of min_sentence the frame of the rule just met is pushed last onto the LIFO work stack. Each lazily filled cost table of the sentence generator is filled by one computation at all its sites, and no computation fills two tables.',
        note='A necessary condition for exactness and termination-at-the-fixed-point. That the transfer functions are right beyond the '
             'FIRST/nullable pairing is NOT decided (the pairing rule found a real FOLLOW defect, fixed in /repo 2a78056); '
             'nor is reachability; of minimal sentences only the defer-then-stop discipline (it found the defect fixed in /repo 4c9dae6); 1 known finding (rule_min_costs can hang / overflow on unit cycles and '
             'unproductive recursion). Trusted: ' + TB,
        technique='structural recognition of fixed-point loops in MIR + monotone-flag and noticed-mutation checks (reachability avoiding flag-raising blocks)',
        ref='§4 C17, §10.6'),
    'C18': dict(
        level='other',
        text='Cache-key coverage (every builder setting read by code generation or after the skip decision is read by '
             'rebuild_cache, modulo an exempt list with reasons); the skip-decision table of CTParserBuilder::build (both '
             'metadata reads succeed, output strictly newer than grammar with that operand orientation, output readable and '
             'containing the cache string computed by rebuild_cache); delete-before-regenerate by dominance; no failing exit '
             '(Err return, `?`, explicit panic) after the output path is claimed without removal of the output - directly or '
             'through a drop guard that owns the path and is disarmed only immediately before Ok exits; lexer rewrite rule; type '
             'parameters whose names the generated code spells out are part of the cache key; enum settings are rendered '
             'injectively (different variants differ, payloads are rendered); the token-map builder removes its output on every '
             'failing exit as well; no failing exit of the lexer build precedes the nested parser build (1 known finding). Before the output path is claimed nothing can fail but the refusal to generate two files to one path (found the defect fixed in /repo e2492ae). No path-valued setting is reduced to a component of itself on its way into the cache record.',
        note='Necessary conditions for "ends in the state a clean build would". Equality with a clean build across arbitrary '
             'file-system histories / clock granularity is NOT decided. 4 known findings (a lexer failure before the nested parser build leaves the parser file; settings that bypass the cache: the '
             'inspect_rt callback that validates test_files, and the unstable in-memory grammar sources). Trusted: std::fs semantics; ' + TB,
        technique='field-read coverage over the call-graph cone, path-table extraction of the skip decision, dominance/reachability of failing exits vs. deletion points and drop-guard typestate in MIR',
        ref='§4 C18'),
    'C19': dict(
        level='other',
        text='ONLY the clause "the line-start table is never indexed out of bounds": for every function of '
             'cfgrammar::newlinecache every index or sub-slice of NewlineCache::newlines - through Index calls and through the built-in bounds check of a slice that is a view of the table - is proved in range on every path '
             '(and no usize subtraction inside an index expression underflows) by a small linear-integer argument from the '
             "path's comparisons, the postconditions of slice::binary_search over exactly the sub-slice searched, usize >= 0 "
             'and two table invariants whose premises are checked structurally (new() builds the table as [0]; every other '
             'holder of &mut newlines only grows it). Plus the CR LF clause of column counting: the character loop, read as a '
             'finite transducer (state = loop-carried small-domain locals, input = CR/LF/other), is bisimilar to "count every '
             'character except an LF right after a CR". No byte offset reaching Span::new or a slice bound is formed as '
             'str::lines()-item length + 1 (lines() strips CR LF too). Every library construction of a lexer hands over a line table '
             'built from exactly the lexer\'s text: NewlineCache::from_str(text), or pieces that provably tile it (ghost-cursor argument). '
             'A lexer\'s line_col answers both ends of a span with the line table\'s query; no unchecked subtraction is made from the length of a '
             'str::lines() item (it excludes the terminator a position may lie in). The caret line of a diagnostic is indented by the width of the line number printed on that very line. The column functions count the text of a line as it is: nothing is trimmed, stripped, replaced or filtered before a count.',
        note='A necessary condition of "the lines-of-span query never panics, including spans that end at a line start or at '
             'the end of the text"; it found the out-of-bounds read fixed in /repo 707b1f1 and the subtraction overflow fixed in 3bc64fc. NOT decided: that line '
             'numbers and returned byte ranges are the right ones, the str slicing done with them in lrlex/lrpar, '
             'the unwrap()s that rely on the same invariants. The inequality prover is in-house '
             '(Fourier-Motzkin refutation + one integer tightening step, rules/linarith.py); no solver is called. Trusted: '
             'slice::binary_search postconditions; ' + TB,
        technique='path-sensitive linear bounds analysis over MIR terms (relational numeric abstract domain) + who-may-mutate check for the table invariants',
        ref='§4 C19, §3 A10'),
    'C20': dict(
        level='other',
        text='All unchecked usize->StorageT narrowing casts (AsPrimitive::as_) in the library crates are enumerated from the '
             'MIR and classified by operand provenance; every cast of the length of, or an enumerate index over, a vector '
             'still under construction must be covered by a "not big enough" guard on that same vector that lies after '
             'its last growth and on every way from the cast to a return. State-count guards of the pager, StateGraph::new '
             'and StateTable::new and the checked lexer rule-id conversion are checked for existence and placement. The iteration '
             'order of hash containers keyed by StorageT values (fixed hasher, but width-dependent hashes) must not reach an ordered result. '
             'Every width refusal carries the documented "not big enough" message. No product is computed in the storage type '
             '(row offsets are formed after widening to usize). No count (tokens_len and the like) is incremented in the storage type.',
        note='Necessary condition for "no width yields wrapped sizes/indices"; equality of results across accepted widths is '
             'not decided beyond these two conditions. 2 operand origins are trusted with a stated reason (table in rules/c20.py); 2 known '
             'findings (state numbering and the reduce/reduce conflict list differ between widths). Trusted: ' + TB,
        technique='guard-before-narrowing dataflow over MIR (def-use provenance, dominance, reachability of growth after guard)',
        ref='§4 C20'),
}

NA = {}

PENDING = 'static rule designed in DESIGN.md §4 but not implemented yet in this revision; not claimed until its check exists'

ALL = ['C%02d' % i for i in range(1, 21)]


def main():
    checks = []
    for pid in ALL:
        if pid not in CHECKS:
            continue
        c = CHECKS[pid]
        checks.append({
            'property_id': pid,
            'quick_cmd': './check %s --tier quick' % pid,
            'thorough_cmd': './check %s --tier thorough' % pid,
            'evidence_file': 'evidence/%s.json' % pid,
            'replay_cmd_template': './check %s --explain {path}' % pid,
            'engine': 'grmfacts+rules',
            'level_claimed': {'category': c['level'], 'text': c['text'], 'design_ref': 'DESIGN.md ' + c['ref']},
            'level_note': c['note'],
            'technique': c['technique'],
        })
    na = []
    for pid in ALL:
        if pid in CHECKS:
            continue
        na.append({'property_id': pid, 'reason': NA.get(pid, PENDING)})
    man = {
        'version': 1,
        'setup_cmd': './check --setup',
        'hooks': {
            'guard': 'grmtools_verif',
            'enable': 'none needed: static analysis reads /repo as it is; no instrumentation is compiled in',
            'baseline_off_cmd': 'cd /repo && cargo test --workspace --no-fail-fast --offline',
            'source_commits': [],
            'add_only': True,
        },
        'engines': [
            {'name': 'grmfacts+rules', 'path': 'driver/ rules/ check',
             'serves_properties': sorted(CHECKS),
             'kind_free_text': 'static analysis: rustc_private driver exporting MIR/ADT/impl facts of /repo\'s current tree '
                               '(cargo +nightly check with RUSTC_WORKSPACE_WRAPPER), repository-specific rules in Python over '
                               'CFG, dominators, symbolic path tables, call graph'},
        ],
        'checks': checks,
        'not_applicable': na,
        'notes': 'All verdicts are computed from the source of /repo without executing grmtools. See DESIGN.md. '
                 'known_findings.txt lists recorded defects and fix: commits.',
    }
    with open(os.path.join(V, 'MANIFEST.json'), 'w') as fh:
        json.dump(man, fh, indent=1)
    print('MANIFEST.json: %d checks, %d not applicable' % (len(checks), len(na)))


if __name__ == '__main__':
    main()
