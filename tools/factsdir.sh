#!/bin/sh
# prints the facts directory (libs scope) of the current /repo tree, extracting if needed
cd /verif
H=$(python3 -c "import sys; sys.path.insert(0,'rules'); import harness; print(harness.tree_hash('${VERIF_REPO:-/repo}')[0])")
ls -d .cache/facts/libs-$H-* 2>/dev/null | head -1
