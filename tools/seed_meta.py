#!/usr/bin/env python3
"""tools/seed_meta.py <seeded/dir> <caught_by or 'MISSED: reason'> <confirmation text>"""
import json, sys, os
d = sys.argv[1]
p = os.path.join(d, 'meta.json')
m = json.load(open(p)) if os.path.exists(p) else {}
m['detected_by'] = sys.argv[2]
m['confirmed_by_verifier'] = sys.argv[3]
json.dump(m, open(p, 'w'), indent=1)
print(json.dumps(m)[:400])
