#!/bin/sh
# usage: tools/confirm_seed.sh <worktree> <demo test file> <crate> : confirms in the scratch worktree that
#  (1) the workspace suite passes with the patch, (2) the demo passes without and fails with the patch
wt=$1; demo=$2; crate=$3
cd $wt || exit 2
export CARGO_TARGET_DIR=$wt/target CARGO_NET_OFFLINE=true
git checkout -q -- . 
name=$(basename $demo .rs)
mkdir -p $crate/tests && cp MUTANT/$demo $crate/tests/
pkg=$(grep -m1 '^name' $crate/Cargo.toml | sed 's/.*"\(.*\)".*/\1/')
echo "== demo WITHOUT patch"; cargo test --offline -p $pkg --test $name 2>&1 | grep -E "^test result|panicked|error(\[|:)" | head -5
git apply MUTANT/patch.diff
echo "== demo WITH patch"; cargo test --offline -p $pkg --test $name 2>&1 | grep -E "^test result|panicked|error(\[|:)" | head -5
rm -rf $crate/tests/$name.rs; rmdir $crate/tests 2>/dev/null
echo "== suite WITH patch"; cargo test --workspace --no-fail-fast --offline 2>&1 | grep -E "^test result" | awk '{p+=$4; f+=$6} END {print p" passed", f" failed"}'
git checkout -q -- .
git status --short | head -5
