#!/bin/sh
# usage: tools/try_benign.sh <dir with *.diff>   - applies each behaviour-preserving patch to /repo, runs ALL checks, reverts;
# any FAIL/LOST line is a false alarm of the checker
d=$1
cd /verif
props=$(python3 -c "import json;print(' '.join(c['property_id'] for c in json.load(open('/verif/MANIFEST.json'))['checks']))")
git -C /repo diff --quiet || { echo "/repo is dirty"; exit 2; }
for f in $(ls $d/*.diff | sort); do
  if ! git -C /repo apply --check "$(realpath $f)" 2>/dev/null; then echo "SKIP $(basename $f): does not apply"; continue; fi
  git -C /repo apply "$(realpath $f)"
  out=""
  for p in $props; do
    o=$(./check $p --no-evidence 2>&1 | grep -E "\[FAIL\]|\[LOST\]|Traceback|cargo check failed" | cut -c1-240)
    [ -n "$o" ] && out="$out\n   $p: $o"
  done
  git -C /repo checkout -- .
  if [ -n "$out" ]; then echo "FALSE-ALARM $(basename $f):$out"; else echo "silent      $(basename $f)"; fi
done
