// grmfacts: a rustc driver that exports the type-checked program (MIR at opt-level 0, ADTs,
// impls) of the crate being compiled as one JSON file.  Injected via RUSTC_WORKSPACE_WRAPPER.
// See /verif/DESIGN.md §2.1 and Appendix B.
#![feature(rustc_private)]
#![allow(clippy::all)]

extern crate rustc_abi;
extern crate rustc_driver;
extern crate rustc_hir;
extern crate rustc_interface;
extern crate rustc_middle;
extern crate rustc_span;

mod json;

use json::J;
use rustc_hir::def::DefKind;
use rustc_hir::def_id::{DefId, LocalDefId};
use rustc_middle::mir::{
    self, AggregateKind, BasicBlockData, Body, Operand, Place, PlaceElem, Rvalue, StatementKind,
    TerminatorKind,
};
use rustc_middle::ty::print::{with_no_trimmed_paths, with_no_visible_paths};
use rustc_middle::ty::{self, GenericArgKind, Ty, TyCtxt};
use rustc_span::Span;
use std::io::Write;

struct Cb;

impl rustc_driver::Callbacks for Cb {
    fn after_analysis<'tcx>(
        &mut self,
        _c: &rustc_interface::interface::Compiler,
        tcx: TyCtxt<'tcx>,
    ) -> rustc_driver::Compilation {
        if let Ok(out) = std::env::var("GRMFACTS_OUT") {
            export(tcx, &out);
        }
        rustc_driver::Compilation::Continue
    }
}

fn main() {
    let mut args: Vec<String> = std::env::args().collect();
    // RUSTC_WORKSPACE_WRAPPER passes the path of the real rustc as argv[1].
    if args.len() > 1 && (args[1].ends_with("rustc") || args[1].contains("/rustc")) {
        args.remove(1);
    }
    rustc_driver::run_compiler(&args, &mut Cb);
}

fn dp(tcx: TyCtxt<'_>, did: DefId) -> String {
    let p = with_no_visible_paths!(with_no_trimmed_paths!(tcx.def_path_str(did)));
    if did.is_local() {
        // the printer omits the name of the crate being compiled
        format!("{}::{}", tcx.crate_name(rustc_hir::def_id::LOCAL_CRATE), p)
    } else {
        p
    }
}

/// Type to string with *all* generic arguments of ADTs spelled out (the pretty printer elides
/// arguments equal to their defaults, which hides e.g. the hasher of a HashMap).
fn ty_str<'tcx>(tcx: TyCtxt<'tcx>, t: Ty<'tcx>) -> String {
    match t.kind() {
        ty::Adt(adt, args) => {
            let mut s = dp(tcx, adt.did());
            // dp() of a generic ADT does not include args
            let mut parts = vec![];
            for a in args.iter() {
                match a.kind() {
                    GenericArgKind::Type(t) => parts.push(ty_str(tcx, t)),
                    GenericArgKind::Lifetime(_) => {}
                    GenericArgKind::Const(c) => parts.push(with_no_trimmed_paths!(format!("{}", c))),
                }
            }
            if !parts.is_empty() {
                s.push('<');
                s.push_str(&parts.join(", "));
                s.push('>');
            }
            s
        }
        ty::Ref(_, inner, m) => format!("&{}{}", if m.is_mut() { "mut " } else { "" }, ty_str(tcx, *inner)),
        ty::RawPtr(inner, m) => format!("*{} {}", if m.is_mut() { "mut" } else { "const" }, ty_str(tcx, *inner)),
        ty::Slice(inner) => format!("[{}]", ty_str(tcx, *inner)),
        ty::Array(inner, n) => format!("[{}; {}]", ty_str(tcx, *inner), with_no_trimmed_paths!(format!("{}", n))),
        ty::Tuple(ts) => {
            let v: Vec<String> = ts.iter().map(|t| ty_str(tcx, t)).collect();
            if v.len() == 1 { format!("({},)", v[0]) } else { format!("({})", v.join(", ")) }
        }
        _ => with_no_visible_paths!(with_no_trimmed_paths!(format!("{}", t))),
    }
}

fn adt_path<'tcx>(tcx: TyCtxt<'tcx>, t: Ty<'tcx>) -> Option<String> {
    match t.kind() {
        ty::Adt(adt, _) => Some(dp(tcx, adt.did())),
        _ => None,
    }
}

fn span_loc(tcx: TyCtxt<'_>, sp: Span) -> (String, usize, bool) {
    let exp = sp.from_expansion();
    let sp2 = if exp { sp.source_callsite() } else { sp };
    let sm = tcx.sess.source_map();
    let loc = sm.lookup_char_pos(sp2.lo());
    let file = match &loc.file.name {
        rustc_span::FileName::Real(r) => match r.local_path() {
            Some(p) => p.to_string_lossy().into_owned(),
            None => format!("{:?}", r),
        },
        other => format!("{:?}", other),
    };
    (file, loc.line, exp)
}

struct Cx<'a, 'tcx> {
    tcx: TyCtxt<'tcx>,
    body: &'a Body<'tcx>,
    env: ty::TypingEnv<'tcx>,
}

impl<'a, 'tcx> Cx<'a, 'tcx> {
    fn place(&self, p: &Place<'tcx>) -> J {
        let tcx = self.tcx;
        let mut pty = mir::PlaceTy::from_ty(self.body.local_decls[p.local].ty);
        let mut projs = vec![];
        for elem in p.projection.iter() {
            let j = match elem {
                PlaceElem::Deref => J::s("deref"),
                PlaceElem::Field(f, _) => {
                    let mut name = None;
                    if let ty::Adt(adt, _) = pty.ty.kind() {
                        let vidx = pty.variant_index.unwrap_or(rustc_abi::FIRST_VARIANT);
                        if adt.is_enum() || adt.is_struct() || adt.is_union() {
                            if vidx.as_usize() < adt.variants().len() {
                                let v = adt.variant(vidx);
                                if f.as_usize() < v.fields.len() {
                                    name = Some(v.fields[f].name.to_string());
                                }
                            }
                        }
                    }
                    let mut o = vec![("f", J::Int(f.as_usize() as i128))];
                    if let Some(n) = name {
                        o.push(("name", J::Str(n)));
                    }
                    J::Obj(o)
                }
                PlaceElem::Downcast(name, v) => J::Obj(vec![
                    ("downcast", J::Int(v.as_usize() as i128)),
                    ("name", match name { Some(n) => J::Str(n.to_string()), None => J::Null }),
                ]),
                PlaceElem::Index(l) => J::Obj(vec![("index", J::Int(l.as_usize() as i128))]),
                PlaceElem::ConstantIndex { offset, from_end, .. } => J::Obj(vec![
                    ("cidx", J::Int(offset as i128)),
                    ("from_end", J::Bool(from_end)),
                ]),
                PlaceElem::Subslice { from, to, from_end } => J::Obj(vec![
                    ("sub", J::Arr(vec![J::Int(from as i128), J::Int(to as i128)])),
                    ("from_end", J::Bool(from_end)),
                ]),
                other => J::Obj(vec![("otherproj", J::Str(format!("{:?}", other)))]),
            };
            projs.push(j);
            pty = pty.projection_ty(tcx, elem);
        }
        J::Obj(vec![("l", J::Int(p.local.as_usize() as i128)), ("p", J::Arr(projs))])
    }

    fn callee(&self, def_id: DefId, args: ty::GenericArgsRef<'tcx>) -> J {
        let tcx = self.tcx;
        let path = dp(tcx, def_id);
        let krate = tcx.crate_name(def_id.krate).to_string();
        let name = tcx.opt_item_name(def_id).map(|s| s.to_string()).unwrap_or_default();
        let mut gargs = vec![];
        for a in args.iter() {
            match a.kind() {
                GenericArgKind::Type(t) => gargs.push(J::Str(ty_str(tcx, t))),
                GenericArgKind::Lifetime(_) => {}
                GenericArgKind::Const(c) => gargs.push(J::Str(with_no_trimmed_paths!(format!("{}", c)))),
            }
        }
        let trait_did = tcx.trait_of_assoc(def_id);
        let mut o = vec![
            ("path", J::Str(path)),
            ("crate", J::Str(krate)),
            ("name", J::Str(name)),
            ("args", J::Arr(gargs)),
        ];
        if let Some(t) = trait_did {
            o.push(("trait", J::Str(dp(tcx, t))));
            if let Some(GenericArgKind::Type(st)) = args.iter().next().map(|a| a.kind()) {
                o.push(("self_ty", J::Str(ty_str(tcx, st))));
            }
        } else if let Some(impl_did) = tcx.impl_of_assoc(def_id) {
            let st = tcx.type_of(impl_did).instantiate(tcx, args).skip_norm_wip();
            o.push(("self_ty", J::Str(ty_str(tcx, st))));
            o.push(("impl_self", J::Str(ty_str(tcx, tcx.type_of(impl_did).instantiate_identity().skip_norm_wip()))));
        }
        // resolve trait calls where possible
        if let Ok(Some(inst)) = ty::Instance::try_resolve(tcx, self.env, def_id, args) {
            let rd = inst.def_id();
            if rd != def_id {
                o.push(("resolved", J::Str(dp(tcx, rd))));
                o.push(("resolved_crate", J::Str(tcx.crate_name(rd.krate).to_string())));
                if let Some(impl_did) = tcx.impl_of_assoc(rd) {
                    let st = tcx.type_of(impl_did).instantiate_identity().skip_norm_wip();
                    o.push(("resolved_impl_self", J::Str(ty_str(tcx, st))));
                }
            }
        }
        J::Obj(o)
    }

    fn constant(&self, c: &mir::ConstOperand<'tcx>) -> J {
        let tcx = self.tcx;
        let ty = c.const_.ty();
        let mut o = vec![("ty", J::Str(ty_str(tcx, ty)))];
        match ty.kind() {
            ty::FnDef(def_id, args) => {
                o.push(("fn", self.callee(*def_id, args)));
                return J::Obj(o);
            }
            _ => {}
        }
        if let Some(si) = c.const_.try_eval_scalar_int(tcx, self.env) {
            let size = si.size();
            let bits = si.to_bits(size);
            let v: i128 = if ty.is_signed() {
                size.sign_extend(bits) as i128
            } else {
                bits as i128
            };
            o.push(("int", J::Int(v)));
            return J::Obj(o);
        }
        // string literals / references to statics
        if let Ok(val) = c.const_.eval(tcx, self.env, c.span) {
            if let mir::ConstValue::Scalar(rustc_middle::mir::interpret::Scalar::Ptr(ptr, _)) = val {
                let (prov, _off) = ptr.into_raw_parts();
                if let rustc_middle::mir::interpret::GlobalAlloc::Static(did) = tcx.global_alloc(prov.alloc_id()) {
                    o.push(("static", J::Str(dp(tcx, did))));
                    return J::Obj(o);
                }
            }
            if let ty::Ref(_, inner, _) = ty.kind() {
                if inner.is_str() {
                    if let Some(bytes) = val.try_get_slice_bytes_for_diagnostics(tcx) {
                        o.push(("str", J::Str(String::from_utf8_lossy(bytes).into_owned())));
                        return J::Obj(o);
                    }
                }
            }
        }
        if let mir::Const::Unevaluated(uv, _) = c.const_ {
            if let Some(p) = uv.promoted {
                // a promoted constant of this (or another) body: exported with the body it belongs to
                o.push(("promoted", J::Arr(vec![J::Str(dp(tcx, uv.def)), J::Int(p.as_u32() as i128)])));
            }
        }
        o.push(("opaque", J::Str(with_no_trimmed_paths!(format!("{}", c.const_)))));
        J::Obj(o)
    }

    fn operand(&self, op: &Operand<'tcx>) -> J {
        match op {
            Operand::Copy(p) => J::Obj(vec![("copy", self.place(p))]),
            Operand::Move(p) => J::Obj(vec![("move", self.place(p))]),
            Operand::Constant(c) => J::Obj(vec![("const", self.constant(c))]),
            #[allow(unreachable_patterns)]
            other => J::Obj(vec![("otherop", J::Str(format!("{:?}", other)))]),
        }
    }

    fn rvalue(&self, rv: &Rvalue<'tcx>) -> J {
        let tcx = self.tcx;
        match rv {
            Rvalue::Use(op, ..) => J::Obj(vec![("use", self.operand(op))]),
            Rvalue::Ref(_, bk, p) => J::Obj(vec![
                ("ref", self.place(p)),
                ("mut", J::Bool(matches!(bk, mir::BorrowKind::Mut { .. }))),
            ]),
            Rvalue::RawPtr(_, p) => J::Obj(vec![("rawptr", self.place(p))]),
            Rvalue::CopyForDeref(p) => J::Obj(vec![("use", J::Obj(vec![("copy", self.place(p))]))]),
            Rvalue::Discriminant(p) => {
                let mut o = vec![("discr", self.place(p))];
                let pty = p.ty(self.body, tcx).ty;
                if let ty::Adt(adt, _) = pty.kind() {
                    if adt.is_enum() {
                        o.push(("adt", J::Str(dp(tcx, adt.did()))));
                        let mut vals = vec![];
                        for (vidx, _) in adt.variants().iter_enumerated() {
                            vals.push(J::Int(adt.discriminant_for_variant(tcx, vidx).val as i128));
                        }
                        o.push(("vals", J::Arr(vals)));
                    }
                }
                J::Obj(o)
            }
            Rvalue::BinaryOp(op, ab) => J::Obj(vec![
                ("bin", J::Str(format!("{:?}", op))),
                ("a", self.operand(&ab.0)),
                ("b", self.operand(&ab.1)),
            ]),
            Rvalue::UnaryOp(op, a) => J::Obj(vec![
                ("un", J::Str(format!("{:?}", op))),
                ("a", self.operand(a)),
            ]),
            Rvalue::Cast(kind, a, to) => J::Obj(vec![
                ("cast", J::Str(format!("{:?}", kind))),
                ("from", J::Str(ty_str(tcx, a.ty(self.body, tcx)))),
                ("to", J::Str(ty_str(tcx, *to))),
                ("a", self.operand(a)),
            ]),
            Rvalue::Repeat(a, n) => J::Obj(vec![
                ("repeat", self.operand(a)),
                ("n", J::Str(with_no_trimmed_paths!(format!("{}", n)))),
            ]),
            Rvalue::Aggregate(kind, ops) => {
                let k = match &**kind {
                    AggregateKind::Adt(did, vidx, _args, _, _) => {
                        let adt = tcx.adt_def(*did);
                        let vname = adt.variant(*vidx).name.to_string();
                        J::Obj(vec![
                            ("adt", J::Str(dp(tcx, *did))),
                            ("variant", J::Int(vidx.as_usize() as i128)),
                            ("vname", J::Str(vname)),
                        ])
                    }
                    AggregateKind::Tuple => J::s("tuple"),
                    AggregateKind::Array(_) => J::s("array"),
                    AggregateKind::Closure(did, _) => J::Obj(vec![("closure", J::Str(dp(tcx, *did)))]),
                    other => J::Obj(vec![("otheragg", J::Str(format!("{:?}", other)))]),
                };
                let ops: Vec<J> = ops.iter().map(|o| self.operand(o)).collect();
                J::Obj(vec![("agg", k), ("ops", J::Arr(ops))])
            }
            other => J::Obj(vec![("other", J::Str(format!("{:?}", other)))]),
        }
    }

    fn block(&self, bb: &BasicBlockData<'tcx>) -> J {
        let tcx = self.tcx;
        let mut stmts = vec![];
        for st in &bb.statements {
            let (_, line, exp) = span_loc(tcx, st.source_info.span);
            match &st.kind {
                StatementKind::Assign(b) => {
                    let (lhs, rv) = &**b;
                    stmts.push(J::Obj(vec![
                        ("k", J::s("assign")),
                        ("lhs", self.place(lhs)),
                        ("rv", self.rvalue(rv)),
                        ("line", J::Int(line as i128)),
                        ("exp", J::Bool(exp)),
                    ]));
                }
                StatementKind::SetDiscriminant { place, variant_index } => {
                    stmts.push(J::Obj(vec![
                        ("k", J::s("setdiscr")),
                        ("lhs", self.place(place)),
                        ("variant", J::Int(variant_index.as_usize() as i128)),
                        ("line", J::Int(line as i128)),
                    ]));
                }
                StatementKind::StorageLive(_)
                | StatementKind::StorageDead(_)
                | StatementKind::Nop
                | StatementKind::FakeRead(..)
                | StatementKind::PlaceMention(..)
                | StatementKind::AscribeUserType(..)
                | StatementKind::Coverage(..)
                | StatementKind::ConstEvalCounter => {}
                other => {
                    stmts.push(J::Obj(vec![
                        ("k", J::s("other")),
                        ("dbg", J::Str(format!("{:?}", other))),
                        ("line", J::Int(line as i128)),
                    ]));
                }
            }
        }
        let term = bb.terminator();
        let (_, line, exp) = span_loc(tcx, term.source_info.span);
        let bbn = |b: mir::BasicBlock| J::Int(b.as_usize() as i128);
        let unwind_bb = |u: &mir::UnwindAction| match u {
            mir::UnwindAction::Cleanup(b) => bbn(*b),
            _ => J::Null,
        };
        let mut t = match &term.kind {
            TerminatorKind::Goto { target } => vec![("k", J::s("goto")), ("bb", bbn(*target))],
            TerminatorKind::SwitchInt { discr, targets } => {
                let mut tg = vec![];
                for (v, b) in targets.iter() {
                    tg.push(J::Arr(vec![J::Int(v as i128), bbn(b)]));
                }
                vec![
                    ("k", J::s("switch")),
                    ("on", self.operand(discr)),
                    ("on_ty", J::Str(ty_str(tcx, discr.ty(self.body, tcx)))),
                    ("targets", J::Arr(tg)),
                    ("otherwise", bbn(targets.otherwise())),
                ]
            }
            TerminatorKind::Return => vec![("k", J::s("return"))],
            TerminatorKind::Unreachable => vec![("k", J::s("unreachable"))],
            TerminatorKind::UnwindResume => vec![("k", J::s("resume"))],
            TerminatorKind::UnwindTerminate(_) => vec![("k", J::s("terminate"))],
            TerminatorKind::Drop { place, target, unwind, .. } => {
                let pty = place.ty(self.body, tcx).ty;
                let mut o = vec![
                    ("k", J::s("drop")),
                    ("place", self.place(place)),
                    ("ty", J::Str(ty_str(tcx, pty))),
                    ("ret", bbn(*target)),
                    ("unwind", unwind_bb(unwind)),
                ];
                if let ty::Adt(adt, _) = pty.kind() {
                    if let Some(d) = tcx.adt_destructor(adt.did()) {
                        o.push(("drop_impl", J::Str(dp(tcx, d.did))));
                    }
                }
                o
            }
            TerminatorKind::Call { func, args, destination, target, unwind, .. } => {
                let callee = match func {
                    Operand::Constant(c) => match c.const_.ty().kind() {
                        ty::FnDef(def_id, gargs) => self.callee(*def_id, gargs),
                        _ => J::Obj(vec![("indirect", self.operand(func))]),
                    },
                    _ => J::Obj(vec![
                        ("indirect", self.operand(func)),
                        ("fnty", J::Str(ty_str(tcx, func.ty(self.body, tcx)))),
                    ]),
                };
                let a: Vec<J> = args.iter().map(|s| self.operand(&s.node)).collect();
                vec![
                    ("k", J::s("call")),
                    ("callee", callee),
                    ("args", J::Arr(a)),
                    ("dest", self.place(destination)),
                    ("ret", match target { Some(b) => bbn(*b), None => J::Null }),
                    ("unwind", unwind_bb(unwind)),
                ]
            }
            TerminatorKind::Assert { cond, expected, msg, target, unwind } => vec![
                ("k", J::s("assert")),
                ("cond", self.operand(cond)),
                ("expected", J::Bool(*expected)),
                ("msg", J::Str(format!("{:?}", msg).chars().take(60).collect())),
                ("ok", bbn(*target)),
                ("unwind", unwind_bb(unwind)),
            ],
            TerminatorKind::FalseEdge { real_target, .. } => vec![("k", J::s("goto")), ("bb", bbn(*real_target))],
            TerminatorKind::FalseUnwind { real_target, .. } => vec![("k", J::s("goto")), ("bb", bbn(*real_target))],
            other => vec![("k", J::s("otherterm")), ("dbg", J::Str(format!("{:?}", other).chars().take(200).collect()))],
        };
        t.push(("line", J::Int(line as i128)));
        t.push(("exp", J::Bool(exp)));
        J::Obj(vec![
            ("cleanup", J::Bool(bb.is_cleanup)),
            ("stmts", J::Arr(stmts)),
            ("term", J::Obj(t)),
        ])
    }
}

fn export_body<'tcx>(tcx: TyCtxt<'tcx>, did: LocalDefId) -> Option<J> {
    let kind = tcx.def_kind(did);
    let kstr = match kind {
        DefKind::Fn => "fn",
        DefKind::AssocFn => "assoc_fn",
        DefKind::Closure => "closure",
        _ => return None,
    };
    if !tcx.is_mir_available(did.to_def_id()) {
        return None;
    }
    // coroutine closures etc. are not needed
    if tcx.is_coroutine(did.to_def_id()) {
        return None;
    }
    let body: &Body<'tcx> = tcx.optimized_mir(did.to_def_id());
    let env = ty::TypingEnv::post_analysis(tcx, did.to_def_id());
    let cx = Cx { tcx, body, env };
    let sp = tcx.def_span(did);
    let full = body.span;
    let (file, lo, exp) = span_loc(tcx, full);
    let sm = tcx.sess.source_map();
    let hi = sm.lookup_char_pos(if exp { full.source_callsite().hi() } else { full.hi() }).line;
    let _ = sp;
    let mut o = vec![
        ("path", J::Str(dp(tcx, did.to_def_id()))),
        ("name", J::Str(tcx.opt_item_name(did.to_def_id()).map(|s| s.to_string()).unwrap_or_default())),
        ("kind", J::s(kstr)),
        ("file", J::Str(file)),
        ("lo", J::Int(lo as i128)),
        ("hi", J::Int(hi as i128)),
        ("from_expansion", J::Bool(exp)),
        ("arg_count", J::Int(body.arg_count as i128)),
    ];
    if kind == DefKind::Closure {
        let mut p = tcx.local_parent(did);
        o.push(("parent", J::Str(dp(tcx, p.to_def_id()))));
        while tcx.def_kind(p) == DefKind::Closure {
            p = tcx.local_parent(p);
        }
        o.push(("root_parent", J::Str(dp(tcx, p.to_def_id()))));
    }
    if kind == DefKind::AssocFn {
        if let Some(impl_did) = tcx.impl_of_assoc(did.to_def_id()) {
            let st = tcx.type_of(impl_did).instantiate_identity().skip_norm_wip();
            o.push(("impl_of", J::Str(ty_str(tcx, st))));
            if let Some(tr) = tcx.impl_opt_trait_ref(impl_did) {
                o.push(("trait", J::Str(dp(tcx, tr.skip_binder().def_id))));
            }
        }
    }
    if matches!(kind, DefKind::Fn | DefKind::AssocFn) {
        o.push(("vis", J::Str(format!("{:?}", tcx.visibility(did.to_def_id())).chars().take(40).collect())));
    }
    let mut locals = vec![];
    for (_l, d) in body.local_decls.iter_enumerated() {
        locals.push(J::Obj(vec![("ty", J::Str(ty_str(tcx, d.ty)))]));
    }
    o.push(("locals", J::Arr(locals)));
    let mut dbg = vec![];
    for v in &body.var_debug_info {
        if let mir::VarDebugInfoContents::Place(p) = &v.value {
            dbg.push(J::Obj(vec![("name", J::Str(v.name.to_string())), ("place", cx.place(p))]));
        }
    }
    o.push(("debug", J::Arr(dbg)));
    let mut blocks = vec![];
    for (_b, data) in body.basic_blocks.iter_enumerated() {
        blocks.push(cx.block(data));
    }
    o.push(("blocks", J::Arr(blocks)));
    // promoted constants (`&Action::Accept`, `&[..]` literals ..): tiny straight-line bodies computing the constant
    let mut proms = vec![];
    for pb in tcx.promoted_mir(did.to_def_id()).iter() {
        let pcx = Cx { tcx, body: pb, env };
        let mut plocals = vec![];
        for (_l, d) in pb.local_decls.iter_enumerated() {
            plocals.push(J::Obj(vec![("ty", J::Str(ty_str(tcx, d.ty)))]));
        }
        let mut pblocks = vec![];
        for (_b, data) in pb.basic_blocks.iter_enumerated() {
            pblocks.push(pcx.block(data));
        }
        proms.push(J::Obj(vec![("locals", J::Arr(plocals)), ("blocks", J::Arr(pblocks))]));
    }
    o.push(("promoted", J::Arr(proms)));
    Some(J::Obj(o))
}

fn attr_snippets(tcx: TyCtxt<'_>, did: LocalDefId) -> Vec<J> {
    let hir_id = tcx.local_def_id_to_hir_id(did);
    let sm = tcx.sess.source_map();
    let mut v = vec![];
    for a in tcx.hir_attrs(hir_id) {
        match a {
            rustc_hir::Attribute::Unparsed(item) => match sm.span_to_snippet(item.span) {
                Ok(s) => v.push(J::Str(s)),
                Err(_) => v.push(J::Str(format!("{:?}", item.path).chars().take(120).collect())),
            },
            other => {
                let d = format!("{:?}", other);
                // parsed (built-in) attributes: keep the variant name only
                let name: String = d.chars().take_while(|c| c.is_alphanumeric() || *c == '(' || *c == '_').collect();
                v.push(J::Str(format!("builtin:{}", name)));
            }
        }
    }
    v
}

fn export(tcx: TyCtxt<'_>, out: &str) {
    let crate_name = tcx.crate_name(rustc_hir::def_id::LOCAL_CRATE).to_string();
    let nonce = std::env::var("GRMFACTS_NONCE").unwrap_or_default();
    let mut bodies = vec![];
    for did in tcx.hir_body_owners() {
        if let Some(b) = export_body(tcx, did) {
            bodies.push(b);
        }
    }
    let mut adts = vec![];
    let mut impls = vec![];
    let mut statics = vec![];
    for did in tcx.hir_crate_items(()).definitions() {
        match tcx.def_kind(did) {
            DefKind::Struct | DefKind::Enum => {
                let adt = tcx.adt_def(did.to_def_id());
                let mut variants = vec![];
                for (vidx, v) in adt.variants().iter_enumerated() {
                    let mut fields = vec![];
                    for f in v.fields.iter() {
                        let fty = tcx.type_of(f.did).instantiate_identity().skip_norm_wip();
                        let mut fo = vec![
                            ("name", J::Str(f.name.to_string())),
                            ("ty", J::Str(ty_str(tcx, fty))),
                            ("vis", J::Str(format!("{:?}", f.vis).chars().take(60).collect())),
                        ];
                        if let Some(l) = f.did.as_local() {
                            fo.push(("attrs", J::Arr(attr_snippets(tcx, l))));
                        }
                        fields.push(J::Obj(fo));
                    }
                    let discr = if adt.is_enum() { adt.discriminant_for_variant(tcx, vidx).val } else { 0 };
                    let mut vo = vec![
                        ("name", J::Str(v.name.to_string())),
                        ("discr", J::Int(discr as i128)),
                        ("fields", J::Arr(fields)),
                    ];
                    if adt.is_enum() {
                        if let Some(l) = v.def_id.as_local() {
                            vo.push(("attrs", J::Arr(attr_snippets(tcx, l))));
                        }
                    }
                    variants.push(J::Obj(vo));
                }
                let (file, lo, _) = span_loc(tcx, tcx.def_span(did));
                adts.push(J::Obj(vec![
                    ("path", J::Str(dp(tcx, did.to_def_id()))),
                    ("kind", J::s(if adt.is_enum() { "enum" } else { "struct" })),
                    ("variants", J::Arr(variants)),
                    ("attrs", J::Arr(attr_snippets(tcx, did))),
                    ("file", J::Str(file)),
                    ("lo", J::Int(lo as i128)),
                ]));
            }
            DefKind::Impl { .. } => {
                let st = tcx.type_of(did).instantiate_identity().skip_norm_wip();
                let tr = tcx.impl_opt_trait_ref(did.to_def_id()).map(|t| dp(tcx, t.skip_binder().def_id));
                let sp = tcx.def_span(did);
                let ed = sp.ctxt().outer_expn_data();
                let derive_of = match ed.kind {
                    rustc_span::ExpnKind::Macro(rustc_span::MacroKind::Derive, name) => Some(name.to_string()),
                    _ => None,
                };
                let (file, lo, _) = span_loc(tcx, sp);
                let mut items = vec![];
                for it in tcx.associated_item_def_ids(did.to_def_id()) {
                    items.push(J::Str(dp(tcx, *it)));
                }
                impls.push(J::Obj(vec![
                    ("path", J::Str(dp(tcx, did.to_def_id()))),
                    ("trait", match tr { Some(t) => J::Str(t), None => J::Null }),
                    ("self_ty", J::Str(ty_str(tcx, st))),
                    ("self_adt", match adt_path(tcx, st) { Some(p) => J::Str(p), None => J::Null }),
                    ("derive_of", match derive_of { Some(t) => J::Str(t), None => J::Null }),
                    ("items", J::Arr(items)),
                    ("file", J::Str(file)),
                    ("lo", J::Int(lo as i128)),
                ]));
            }
            DefKind::Static { .. } => {
                let t = tcx.type_of(did).instantiate_identity().skip_norm_wip();
                let (file, lo, _) = span_loc(tcx, tcx.def_span(did));
                statics.push(J::Obj(vec![
                    ("path", J::Str(dp(tcx, did.to_def_id()))),
                    ("ty", J::Str(ty_str(tcx, t))),
                    ("mutable", J::Bool(tcx.is_mutable_static(did.to_def_id()))),
                    ("file", J::Str(file)),
                    ("lo", J::Int(lo as i128)),
                ]));
            }
            _ => {}
        }
    }
    let is_test = tcx.sess.opts.test;
    let mut features = vec![];
    for (k, v) in tcx.sess.config.iter() {
        if k.as_str() == "feature" {
            if let Some(v) = v {
                features.push(J::Str(v.to_string()));
            }
        }
    }
    let crate_types: Vec<J> = tcx.crate_types().iter().map(|c| J::Str(format!("{:?}", c))).collect();
    let root = J::Obj(vec![
        ("nonce", J::Str(nonce)),
        ("crate", J::Str(crate_name.clone())),
        ("crate_types", J::Arr(crate_types)),
        ("test", J::Bool(is_test)),
        ("features", J::Arr(features)),
        ("bodies", J::Arr(bodies)),
        ("adts", J::Arr(adts)),
        ("impls", J::Arr(impls)),
        ("statics", J::Arr(statics)),
    ]);
    let mut s = String::new();
    root.write(&mut s);
    let stable = tcx.stable_crate_id(rustc_hir::def_id::LOCAL_CRATE);
    let fname = format!("{}/{}-{:x}.json", out, crate_name, stable.as_u64());
    let tmp = format!("{}.tmp{}", fname, std::process::id());
    let mut f = std::fs::File::create(&tmp).expect("grmfacts: cannot create fact file");
    f.write_all(s.as_bytes()).expect("grmfacts: write");
    drop(f);
    std::fs::rename(&tmp, &fname).expect("grmfacts: rename");
}
