// Minimal JSON value + writer (the driver has zero cargo dependencies).
pub enum J {
    Null,
    Bool(bool),
    Int(i128),
    Str(String),
    Arr(Vec<J>),
    Obj(Vec<(&'static str, J)>),
}

impl J {
    pub fn s(x: &str) -> J {
        J::Str(x.to_string())
    }

    pub fn write(&self, out: &mut String) {
        match self {
            J::Null => out.push_str("null"),
            J::Bool(b) => out.push_str(if *b { "true" } else { "false" }),
            J::Int(i) => out.push_str(&i.to_string()),
            J::Str(s) => write_str(s, out),
            J::Arr(v) => {
                out.push('[');
                for (i, x) in v.iter().enumerate() {
                    if i > 0 {
                        out.push(',');
                    }
                    x.write(out);
                }
                out.push(']');
            }
            J::Obj(v) => {
                out.push('{');
                for (i, (k, x)) in v.iter().enumerate() {
                    if i > 0 {
                        out.push(',');
                    }
                    write_str(k, out);
                    out.push(':');
                    x.write(out);
                }
                out.push('}');
            }
        }
    }
}

fn write_str(s: &str, out: &mut String) {
    out.push('"');
    for c in s.chars() {
        match c {
            '"' => out.push_str("\\\""),
            '\\' => out.push_str("\\\\"),
            '\n' => out.push_str("\\n"),
            '\r' => out.push_str("\\r"),
            '\t' => out.push_str("\\t"),
            c if (c as u32) < 0x20 => out.push_str(&format!("\\u{:04x}", c as u32)),
            c => out.push(c),
        }
    }
    out.push('"');
}
